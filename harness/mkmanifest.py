#!/usr/bin/env python3
"""Regenerate /verif/MANIFEST.json from the table below (run after adding a property module)."""
import json
import os

VERIF = os.path.dirname(os.path.dirname(os.path.abspath(__file__)))
PY = "/venv/bin/python"

# id -> (technique, level text, level note, design_ref)
CLAIMED = {
    "C01": (
        "Lean 4 theorems over the reals about the model of log_likelihood (mixture identity vs Mathlib's gaussianPDFReal, integral = 1, lse bounds, tied components both count: + log 2 for an exact two-way tie) + Float-instantiated model vs implementation correspondence",
        "Proof: logLik = log of the weighted mixture of Mathlib normal densities, integrates to one, per-component terms log-sum-exp to it, batch/chunked = row-wise, for all C, D, parameters and samples. The tie to gmm.py is the correspondence of the same Lean definitions run at Float against the implementation (single, batch, Dask, acc_stats).",
        "Real arithmetic, not IEEE: the clause 'finite in the tails' is partial (theorem C01_tail_bounds gives max <= lse <= max + log C over the reals; float behaviour is only searched). Trusted: Lean kernel, Mathlib, harness comparison with tolerance 1e-8.",
        "§6 C01",
    ),
    "C02": (
        "Lean 4 theorems (induction over the block list, List.Perm) about the model of e_step / GMMStats.__add__/__iadd__ + Float model vs implementation correspondence over enumerated row compositions",
        "Proof: the statistics are t, the sums of Bayes posteriors and the posterior-weighted first/second moments, n >= 0 and sums to t; e_step of a concatenation is the sum; hence every list of blocks (any number, sizes, empty blocks) and every arrangement of rows into blocks folds to the whole-set statistics; + / += refuse exactly differing declared shapes. Tie: model@Float vs acc_stats/transform/+/+= on NumPy and Dask input over all 2^(n-1) compositions for small n plus random ones.",
        "Real arithmetic; float rounding differences between summation orders are licensed only up to 1e-8 on sampled inputs. Dask's reduction internals are not modelled (only its result).",
        "§6 C02",
    ),
    "C03": (
        "Lean 4 theorem C03_ml_em_monotone (EM lower bound, Gibbs inequality, weighted least squares, log t <= t-1) for all 8 switch combinations + emLoop_spec stopping-rule theorem; Float model vs implementation for the M-step, and the model's loop replayed on the implementation's recorded criterion trajectory (exact)",
        "Proof: one ML EM iteration of the model never decreases the training log-likelihood for all C, D, data, switches under the 'no floor active' guards; fit performs k <= max iterations, returns the k-th iterate, never met the test at an earlier iteration >= 2 and k = max or the test holds at k (<=, relative change, from the second iteration). Tie: M-step correspondence (K) and stop index on recorded trajectories incl. exact boundary thresholds and float neighbours (O), NumPy and Dask.",
        "Real arithmetic; termination for max_fitting_steps=None is not claimed (the loop is modelled with fuel). The trajectory is observed by wrapping gmm.m_step from the harness.",
        "§6 C03",
    ),
    "C05": (
        "Lean 4 theorems about the dual-variant model of map_gmm_m_step (Spec = Reynolds eq. 11-13, Code = pinned commit): blend formulas, normalisation, non-negativity, no-evidence branch, limits r->inf / r->0+ (Filter.Tendsto), exact Code-vs-Spec deviation and its refutation witness; monotonicity of the relevance-penalised likelihood under means-only adaptation (EM lower bound + penalised weighted least squares, one and any number of iterations); Float model vs implementation correspondence accepting either variant",
        "Proof: adapted means/weights are the stated relevance blends (weights renormalised to the simplex), Spec variances are the blended second moment minus the squared new mean and are >= 0, components without evidence keep the prior, limits in the relevance factor; the code's variance deviates by exactly (1-a)(mu0^2 - mu0) (known finding D3, refuted in Lean with the witness replayed on the code). Tie: one M-step over all switch combinations, starved components, relevance 1e-6..1e6, fixed ratios incl. 0 and 1; two-iteration fit chained through the model.",
        "Real arithmetic. C05_map_means_monotone assumes that no component is below the count threshold (there the code returns the prior mean). Known finding D3 is reported as KNOWN-FINDING, any other deviation is a VIOLATION.",
        "§6 C05",
    ),
    "C06": (
        "Lean 4 theorems: Lloyd descent (argmin step + weighted-least-squares decomposition on lists), centroid = cluster mean, every sample in exactly one cluster's count and sum whatever the data (exact ties go to the first nearest centroid in counts and sums alike), additivity over row blocks, criterion = distortion for every chunking, emLoop_spec stopping rule; Float model vs implementation for e_step / one fit iteration (NumPy, Dask, from the real initialisation) and the loop replayed on recorded criterion trajectories (exact)",
        "Proof: one k-means iteration never increases the sum (mean) of squared distances to the nearest centroid, every centroid is the mean of the samples nearest to its predecessor, the reported criterion is the mean squared distance for the entering centroids for every list of row blocks, the iteration is chunking-independent, and fit stops by the stated rule. Tie: K correspondence of e_step and one iteration, O correspondence of the stop index incl. exact boundary thresholds.",
        "Real arithmetic; dask_ml k_init not modelled (initial centroids are an input, obtained from the real initialize); ties and empty clusters are outside the descent clause (empty clusters are C13's subject).",
        "§6 C06",
    ),
    "C20": (
        "Lean 4 theorems: distances are sums of squared differences (cdist and Dask forms equal, >= 0), argminFin returns the first nearest centroid, weights are assigned fractions summing to one, variances equal the biased cluster variance for every chunking and every offset (shift invariance), GMM init exact; Float model vs implementation for transform/predict/variances-and-weights/GMM init on NumPy, Dask and single samples",
        "Proof over the reals for all K, D, centroids, data and chunkings; the float clause (large offsets) is checked by an always-on search with tolerance relative to the spread.",
        "Real arithmetic; ties excluded as in the property; catastrophic cancellation is a float notion: only searched (it found D20, fixed).",
        "§6 C20",
    ),
    "C17": (
        "Lean 4 invariant by induction over operation sequences (Coherent: log-weight and normaliser caches fresh, variances >= current floors) + refinement theorem (likelihood from caches = likelihood of visible parameters; reachable state = freshly built machine) + Exec/Spec bridge; random operation sequences on a real GMMMachine vs the model state machine after every operation",
        "Proof for all finite sequences of setter calls, floor changes, M-steps (as setter sequences) and clones from any fresh machine. Tie: sequences of <= 12 (quick) / <= 40 (thorough) operations on ML and MAP machines incl. deepcopy, pickle and HDF5 save/load, comparing log_likelihood, weights and variances after every operation.",
        "Real arithmetic; deepcopy/pickle/HDF5 are modelled as the identity on the state (that they are is what the correspondence checks); MAP M-steps in sequences do not update variances (C05's known finding).",
        "§6 C17",
    ),
    "C18": (
        "Lean 4 theorems about the model of save / from_hdf5 / load (file = finite map of typed datasets, str stored as bytes, None = absent dataset): round trip identity for well-formed machines, re-save identity, n round trips, MAP needs UBM, load replaces state, statistics round trip and resize, legacy reader equivalence; file contents and loaded fields compared bit-for-bit with the model",
        "Proof for all well-formed machines (known trainer, MAP holds its UBM, variances >= floors), all settings incl. None, all floor shapes, any number of round trips. Tie: actual HDF5 contents (names, kinds, bits) and every loaded attribute vs the model, path and open-file entry points, load into another shape, legacy fixture.",
        "'bit-identical' is equality in the model (values are copied); that h5py returns the stored bytes is checked, not proved. Found and fixed D5, D5b, D21.",
        "§6 C18",
    ),
    "C08": (
        "Lean 4 theorems: closed formula of every entry incl. the |t| <= eps guard, zero for the UBM, linearity in the model offset, additivity in statistics, shape, entry-point equalities, a Gaussian the statistics never visited contributes exactly 0 (no division by a count), a scalar offset is the constant array, and HasDerivAt: the score is the derivative at 0 of the data's UBM log-likelihood as the means move towards the model (log-sum-exp derivative + regrouping into statistics); Float model vs linear_scoring over all argument forms",
        "Proof for all C, D, UBMs, models, statistics, offsets. Tie: linear_scoring with models as machines / 3-D / 2-D arrays, single or listed statistics incl. zero-frame ones, scalar / shared / per-test offsets, both normalisation settings, ML or MAP UBM argument.",
        "Real arithmetic; Python's argument-normalisation glue is modelled by small inductive argument types.",
        "§6 C08",
    ),
    "C14": (
        "Lean 4 theorems over Mathlib matrices: W W^T = S^-1 and S invertible imply W^T S W = 1; whitened data have zero mean and identity sample covariance; WCCN within-class scatter / K of the transformed data is the identity; label-renaming and enumeration-order invariance of the WCCN fit; Float model (own Gauss-Jordan and Cholesky) vs Whitening/WCCN on NumPy and Dask",
        "Proof for all N, D, data with invertible (scaled) scatter, all integer labelings, any Cholesky routine meeting its contract L L^T = A. Tie: projections and transformed data vs the implementation for labels 0..K-1, shifted, negative, non-contiguous, unsorted; LAPACK outputs checked against the assumed contract.",
        "scipy/dask inv and cholesky are parameters with a stated contract (checked at run time on the inputs used), pinv=False only. Found and fixed D6, D22.",
        "§6 C14",
    ),
    "C07": (
        "Lean 4 theorems: every enrolment block update (speaker factors y, all per-session channel factors x_h, residual offset z) is the maximiser of the joint log-posterior logPost in its block (generic block_max lemma = concave quadratic maximisation, instantiated by rearranging the model's sums), hence one sweep and the whole enrolment are monotone in logPost for ISV and JFA, any number of sessions, fractional counts; existence and uniqueness of the joint mode, fixed point of the iteration <-> mode (joint stationarity from block stationarity, JointMax/EnrollMode); normal equations of each block; Exec (Vector) = Spec; Float model vs update_y / compute_latent_x / update_z / enroll and the model's logPost vs an independent NumPy evaluation",
        "Proof for all UBMs with positive variances, all U, V, D, all lists of enrolment statistics with non-negative counts and every number of iterations: logPost (enroll k) <= logPost (enroll (k+1)). Also proved: logPost is a strictly concave quadratic of the flattened latent vector (logPost_joint), so the joint mode exists and is unique (C07_mode_exists_unique); a latent state is a fixed point of the enrolment iteration iff it is that mode (C07_fixed_point_is_mode, C07_mode_is_fixed_point); the log-posterior values converge (C07_posterior_converges). Convergence of the iterates: one iteration contracts the gap to the mode by q = 1 - 1/(6|P|_F^2+1) < 1 (gs3_contraction: three exact block maximisations of a quadratic with precision P >= I), so gap_k <= q^k gap_0 and |latent_k - mode|^2 <= 2 q^k gap_0 (C07_enroll_converges_to_mode, C07_enroll_tendsto_mode). The property is proved in full over the reals; the search (joint mode by solving the joint linear system, gap contraction over 40/400/4000 iterations) runs against the Float implementation.",
        "Real arithmetic; np.linalg.inv is a parameter (contract: exact inverse). Found and fixed D7.",
        "§6 C07",
    ),
    "C11": (
        "Lean 4 theorems: score = frame-normalised linear score of the client mean m + V y + D z against the pooled probe with offset U x-hat; x-hat solves (I + U'S^-1 N U) x = U'S^-1 (F - N m) and maximises the channel-factor posterior (quad_max); pooling theorem (list of statistics = their sum); array-level entry points; Float model vs estimate_x / estimate_ux / score / score_using_array / transform for ISV and JFA",
        "Proof for all UBMs with positive variances, all U, V, D, latent factors and probes with non-negative counts. Tie: K correspondence over 1-4 probe statistics (fractional/zero counts) and array-level wrappers.",
        "Real arithmetic; np.linalg.inv is a parameter (contract: exact inverse), executed by Gauss-Jordan in the Float model. Found and fixed D13.",
        "§6 C11",
    ),
    "C13": (
        "Lean 4 theorems: ML weights >= 0 and 1 <= sum <= 1 + C thr/T (exactly 1 without floor), variances >= floors > 0 after ML/MAP M-steps and in every reachable machine state, every denominator (clip(n,thr), t, n + r, weight normaliser, guarded k-means counts) and log argument (weights, variances, mixture density) is positive; Float model vs implementation on a degenerate input stream + always-on finiteness search over all trainers",
        "Proof of the range facts that make the float statement true, for all C, D, statistics with non-negative counts. Tie: k-means iteration / variances-weights / ML M-step on duplicated rows, constant columns, fewer distinct points than components, far outliers and empty clusters (model keeps the centroid of an empty cluster; NaN compared as NaN).",
        "Partial by nature: NaN/inf are float notions, established only on sampled runs by the always-on search (k-means, GMM ML all switches, GMM MAP, k-means-initialised GMM, i-vector). Zero-weight components rely on IEEE log 0 = -inf and are excluded from the theorems. Found and fixed D2. Known finding D26 (KNOWN-FINDING with a corpus witness): a finite sample further than ~2^53 component spacings from every Gaussian is counted once per tied component by the E-step, so ML / MAP weights sum to 1 + (k-1)/N; a floating-point effect the real-number theorems cannot see (in R the responsibilities sum to one); the training data of the search include half-precision features and single-precision features with such an outlier.",
        "§6 C13",
    ),
    "C19": (
        "Lean 4 theorems about an effect-summary model of the heap (frame: caller cells unchanged along any disciplined call sequence; no-alias: nothing an estimator holds or returns is a caller cell; reuse) + the decidable discipline executed on the effects observed for the real entry points (bitwise snapshots, np.shares_memory, overwrite-after test)",
        "Proof for every sequence of calls obeying the discipline. Tie: random call sequences over fit / fit_using_array / enroll / score / transform / project / acc_stats / linear_scoring / + / += / WCCN / whitening, NumPy and Dask, reusing the same caller objects; the model's discipline checker runs on the observed write/hold sets, and repeated calls are compared.",
        "The theorem is about effect summaries; that the code obeys them is observation on sampled call sequences (partial by nature). References kept by design (ubm, k_means_trainer, init_method) are not counted as aliasing. Found and fixed D15.",
        "§6 C19",
    ),
    "C16": (
        "Lean 4 theorems: history independence of every seeded fit in a model of the random-number plumbing (which generator each trainer draws from; the unseeded i-vector case is shown to depend on history), invariance of GMM ML / k-means training (all iterates, criterion, iteration count) under List.Perm of the samples, WCCN under permutations of samples and any injective class renaming, ISV and JFA training (all three phases) under any reordering of the classes and of the sessions inside each class; the model's provenance keys executed on real in-process histories: equal keys must give bit-identical models",
        "Proof for all histories of global seedings / draws / earlier fits, all sample permutations and class renamings. Tie: random histories over k-means, GMM, ISV, JFA (in-memory and Dask), WCCN, i-vector fits; permuted / renamed / re-historied refits on the implementation.",
        "dask_ml's seeded data-dependent initialisation is not modelled: its row-order dependence is known finding D14 (KNOWN-FINDING line, corpus witness).",
        "§6 C16",
    ),
    "C04": (
        "Lean 4 theorems: per-block iteration = in-memory iteration for GMM ML / MAP and k-means (from C02_any_partition / additivity), lifted to whole fits incl. criterion and iteration count; determinacy over all linear extensions of a recorded task graph from the decidable discipline check (Bernstein conditions on dependency-unordered pairs); isolated = shared execution for readers + one writer with copy-back; every block's statistics enter each M-step exactly once for any shape of the reduction (C04_blocks_exactly_once, soundness of the executable path-count check: dependency order + one path from the final task to every E-step task => the final task receives exactly the sum of their results); the discipline executed on task graphs recorded from the real library + differential Dask-vs-NumPy runs under random-order and cloudpickle-isolating schedulers",
        "Proof for every list of row blocks, every dependency-respecting execution order of a graph passing the discipline, and private-copy execution. Tie: a recording Dask scheduler captures each compute graph with observed per-task write sets (field-level hashes); the model's shape (one E-step task per row block, each with exactly one path to the M-step) / discipline / isolation checks run on them; trained model, criterion and iteration count are compared with the in-memory run for all compositions of small n, uneven chunks, feature-axis chunks and three executors.",
        "Atomic unit = Dask task (no intra-task interleavings). Copy-back completeness is decided by the isolated differential run. ISV/JFA per-class regrouping is C12's theorem. Found and fixed D11 (D1 was found through C06).",
        "§6 C04",
    ),
    "C09": (
        "Lean 4 theorems: each JFA phase iteration of the model IS the abstract linear-Gaussian EM step (rows = supervector entries; items = classes for V, sessions for U, classes per entry for D) and therefore never decreases that phase's marginal likelihood (linGaussEM_monotone: variational bound, log det P + log det S <= tr(PS) - n, concave quadratic maximisation), for every rank; Float model of e_step_v/u/d, finalize_v/u, m_steps and whole fits vs the implementation",
        "Proof for all UBMs with positive variances, all labelled statistics with non-negative fractional counts in which every component is observed, all ranks, all current U, V, D. Tie: accumulators of the first E-step of every phase, finalize_v, and JFA / ISV fits of 1-3 iterations per phase compared with the implementation (2-4 classes, 1-4 sessions).",
        "Real arithmetic; np.linalg.inv is a parameter with contract 'exact inverse' (at Real: Mathlib's inverse). The phase objectives freeze the other subspaces and point estimates exactly as the code does (V phase: x = z = 0; U phase: y fixed, z = 0; D phase: x, y fixed).",
        "§6 C09",
    ),
    "C10": (
        "Lean 4 theorems: project is the unique solution of the posterior normal equations and the posterior mode, zero statistics give the zero vector, sigma >= floor after every M-step, E-step additivity / partition independence, and EM monotonicity of the model's T update (fixed sigma: linGaussEM_monotone) and of the joint T + sigma update with floor (linGaussEM_sigma_monotone) via identification of the code-shaped model with the abstract linear-Gaussian EM step; Float model vs project / e_step / m_step / fit",
        "Proof for all UBMs, T, positive covariances, statistics with non-negative fractional counts in which every component is observed by some statistic, all i-vector dimensions; update_sigma case under floor > 0 and incoming sigma >= floor. Tie: projections, E-step accumulators, one M-step and 1-3 iteration fits (seeded T0) incl. zero-count components and floor-driven covariances.",
        "Real arithmetic; np.linalg.inv/solve parameters with contract 'exact'. Components never observed are outside the monotonicity theorem's guard (they contribute a constant); their handling (keep sigma) is C10_sigma_floor + correspondence. Found and fixed D8.",
        "§6 C10",
    ),
    "C12": (
        "Lean 4 theorems: the regrouping loop of _prepare_dask_input on any partitioning equals the loop on the flattened bag (so per-class lists, and whole ISV/JFA fits, do not depend on the partitioning); the pairwise reduction of any non-empty list is the singleton of its sum (strong induction on the length, both parities); i-vector per-partition E-steps + tree reduction = in-memory E-step; order/isolation determinacy from the discipline check; exactly-once for any reduction shape (C12_exactly_once: in a dependency-ordered graph whose E-step tasks each reach the M-step along exactly one path, the M-step receives exactly the sum of their results, however the additions are grouped; a task without a path is absent from it, C12_dropped_partition_ignored) with the executable path-count check run on the recorded graphs for every partition count 1..24 (thorough 1..80); the model's regrouping and tree reduction executed on the real partition layouts / recorded per-partition accumulators, recorded bag graphs through the discipline, and bag-vs-list differential runs",
        "Proof for every number and size of partitions (incl. single-element and empty ones), every label sequence, every list length of the reduction, every dependency-respecting order of a disciplined graph. Tie: the real _prepare_dask_input output vs the model, ivector e_step partial sums vs the model's treeReduce, ISV / JFA / i-vector fit(dask.bag) vs list for 1..N partitions under synchronous, random-order and isolating executors (thorough: also the processes scheduler).",
        "Atomic unit = Dask task. dask.bag's own partitioning function is not modelled: the layout is read back from the bag. The exactly-once theorem assumes that every task between the E-steps and the M-step adds up its dependencies (tied by the tree_reduce and bag-vs-list runs); dependencies are recorded as sets, so the same task listed twice in one argument list is not visible to the path count (it is to the differential runs).",
        "§6 C12",
    ),
    "C15": (
        "Lean 4 theorems: log-likelihood shifts by -sum log|a|, responsibilities invariant, statistics transform as N, aF+bN, a^2 S+2abF+b^2 N, ML M-step and whole ML training runs equivariant for every number of iterations (floors transformed; starved components included since repair D25, the pinned update refuted), MAP Spec means/variances equivariant and the pinned variance blend refuted (a = 2), linear scores invariant, channel-factor posterior invariant under the transformed ISV/JFA model, every enrolment iterate (y, all x_h, z) invariant, i-vector posterior mean invariant, ISV/JFA training and i-vector training (fixed covariances; updated covariances under uniform scales with the floor transformed) equivariant, k-means assignments invariant under uniform scale + shift and distances under orthogonal maps; any history of public assignments (weights, means, variances, per-Gaussian per-feature floors, copies, in any order) run in converted units leaves the machine with the converted clamped variances and floors (C15_assignment_history_equivariant over the C17 setter state machine, tied by running C17's history correspondence inside this check); metamorphic original-vs-transformed runs on the implementation",
        "Proof for all per-feature scales a != 0 and shifts b (k-means: all similarities). Tie: the kernels involved are tied to the code by C01-C03, C05-C08, C10, C11; here the log-likelihood and E-step kernels are re-run on transformed inputs (negative and widely different scales) and the metamorphic relations are observed on the implementation for likelihoods, ML/MAP training, linear scoring, ISV/JFA latents-scores-client means, i-vectors and k-means under rotations.",
        "Real arithmetic. Known findings: MAP variance update not equivariant (D3), and GMMMachine.fit's relative stopping test on the average log-likelihood is not unit-free, so with an active convergence_threshold the number of iterations depends on the units (D24; C15_gmm_stop_rule_depends_on_units) — both KNOWN-FINDING with a corpus witness; the equivariance theorems are about a fixed number of iterations. ISV / JFA training (all phases, any number of iterations) and i-vector training with fixed covariances are proved equivariant (U, V, D, T rows follow the features); i-vector training with update_sigma is proved equivariant for one M-step under per-feature scales while the floor is inactive, and for whole training runs under any uniform scale and shift with the scalar floor transformed like a variance (clamping or not); per-feature scales with a clamping floor are outside the property (the floor is one scalar).",
        "§6 C15",
    ),
}

NOT_YET = "check not built yet in this round (see DESIGN.md §8 order of work); not claimed"


def main():
    props = [json.loads(l) for l in open(os.path.join(VERIF, "properties.jsonl"))]
    checks, na = [], []
    for p in props:
        pid = p["id"]
        if pid in CLAIMED:
            tech, text, note, ref = CLAIMED[pid]
            checks.append({
                "property_id": pid,
                "quick_cmd": f"{PY} harness/check.py {pid} quick",
                "thorough_cmd": f"{PY} harness/check.py {pid} thorough",
                "evidence_file": f"evidence/{pid}.json",
                "replay_cmd_template": f"{PY} harness/check.py --replay {{path}}",
                "engine": "lean4-model+correspondence",
                "level_claimed": {"category": "proof", "text": text, "design_ref": ref},
                "level_note": note,
                "technique": tech,
            })
        else:
            na.append({"property_id": pid, "reason": NOT_YET})
    man = {
        "version": 1,
        "setup_cmd": "cd lean && lake build BobEM driver",
        "hooks": {
            "guard": "BOB_LEARN_EM_VERIF",
            "enable": "no source hooks are needed: every observation uses the public API, dask.config.set(scheduler=...), pickling and np.shares_memory",
            "baseline_off_cmd": "cd /repo && /venv/bin/python -m pytest -ra -q -p no:cacheprovider --timeout=900 --continue-on-collection-errors",
            "source_commits": [],
            "add_only": True,
        },
        "engines": [{
            "name": "lean4-model+correspondence",
            "path": "lean/ (Lake project BobEM: Model, Lemmas, Props; Driver) + harness/",
            "serves_properties": [c["property_id"] for c in checks],
            "kind_free_text": "Lean 4 theorems about a hand-written polymorphic model (proved at Real, executed at Float) + differential correspondence of the model's executable definitions with the implementation + failing-input search",
        }],
        "checks": checks,
        "not_applicable": na,
        "notes": "exit 0 = held; exit 1 = VIOLATION line(s); exit 2 = infrastructure failure (timeout, build tool missing). known_findings.json lists recorded genuine defects and fixed ones.",
    }
    with open(os.path.join(VERIF, "MANIFEST.json"), "w") as f:
        json.dump(man, f, indent=1)
    print(f"{len(checks)} checks, {len(na)} not claimed")


if __name__ == "__main__":
    main()
