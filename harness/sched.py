"""Dask schedulers used as observation instruments (no source hook: dask.config.set(scheduler=...)).

RecordingScheduler: executes every `compute` graph in a deterministic topological order and records,
per task, its dependencies and the objects whose pickled bytes changed while it ran (observed writes).
OrderScheduler: executes in a seeded random (or explicitly given) topological order, optionally giving
every task deep copies of its inputs and graph literals (worker isolation by cloudpickle round trip).
"""
import hashlib
import itertools
import random
from collections.abc import Mapping

import cloudpickle
from dask._task_spec import Task, TaskRef, convert_legacy_graph


def _h(o):
    try:
        return hashlib.sha1(cloudpickle.dumps(o)).hexdigest()[:12]
    except Exception as e:  # noqa: BLE001
        return "unhashable:" + type(o).__name__


def literals(node):
    """non-trivial Python objects embedded in a task (the machine, bound `self`, arrays)"""
    out = []

    def walk(a):
        if isinstance(a, TaskRef):
            return
        if isinstance(a, (list, tuple)):
            for x in a:
                walk(x)
        elif isinstance(a, dict):
            for x in a.values():
                walk(x)
        elif isinstance(a, Task):
            if hasattr(a.func, "__self__"):
                out.append(a.func.__self__)
            for x in a.args:
                walk(x)
            for x in a.kwargs.values():
                walk(x)
        elif isinstance(a, (int, float, str, type(None), bool, bytes)):
            return
        else:
            out.append(a)

    if isinstance(node, Task):
        walk(node)
    return out


def fname(node):
    f = getattr(node, "func", None)
    return getattr(f, "__name__", type(node).__name__)


def _graph(dsk):
    if not isinstance(dsk, Mapping):
        dsk = dsk.__dask_graph__()
    return convert_legacy_graph(dsk)


def _result(done, keys):
    if isinstance(keys, list):
        return [_result(done, k) for k in keys]
    return done[keys]


class RecordingScheduler:
    def __init__(self):
        self.graphs = []

    @staticmethod
    def snapshot(vals, lits):
        """hash of every dependency value and of every attribute of every embedded object"""
        snap = {("res", str(d)): _h(v) for d, v in vals.items()}
        for l in lits:
            if hasattr(l, "__dict__") and not isinstance(l, type):
                for a, v in vars(l).items():
                    snap[("lit", id(l), a)] = _h(v)
            else:
                snap[("lit", id(l), "")] = _h(l)
        return snap

    def __call__(self, dsk, keys, **kw):
        dsk = _graph(dsk)
        deps = {k: [d for d in n.dependencies if d in dsk] for k, n in dsk.items()}
        done, remaining, tasks = {}, set(dsk), []
        locs = {}

        def loc(tag):
            return locs.setdefault(tag, len(locs))

        while remaining:
            ready = sorted([k for k in remaining if all(d in done for d in deps[k])], key=str)
            k = ready[0]
            node = dsk[k]
            vals = {d: done[d] for d in node.dependencies}
            lits = literals(node)
            before = self.snapshot(vals, lits)
            r = node(vals)
            after = self.snapshot(vals, lits)
            reads = sorted(loc(t) for t in before)
            writes = sorted([loc(t) for t in before if before[t] != after[t]] + [loc(("res", str(k)))])
            tasks.append({"key": str(k), "func": fname(node), "deps": [str(d) for d in deps[k]], "reads": reads, "writes": writes,
                          "lit_types": sorted({type(l).__name__ for l in lits})})
            done[k] = r
            remaining.discard(k)
        shared = sorted(v for t, v in locs.items() if t[0] == "lit")
        self.graphs.append({"tasks": tasks, "shared": shared, "out": [str(k) for k in (keys if isinstance(keys, list) else [keys])]})
        return _result(done, keys)


def topological_orders(deps, limit=5040):
    """all linear extensions of a small DAG (keys -> list of deps)"""
    keys = sorted(deps, key=str)
    out = []

    def rec(done, order):
        if len(out) >= limit:
            return
        if len(order) == len(keys):
            out.append(list(order))
            return
        for k in keys:
            if k not in done and all(d in done for d in deps[k]):
                done.add(k)
                order.append(k)
                rec(done, order)
                order.pop()
                done.discard(k)

    rec(set(), [])
    return out


class OrderScheduler:
    """seeded random topological order; `isolate` round-trips every task's inputs and output through cloudpickle;
    `choose(n_ready)` may be given to enumerate orders explicitly"""

    def __init__(self, seed=0, isolate=False, choose=None):
        self.rng = random.Random(seed)
        self.isolate = isolate
        self.choose = choose
        self.orders = []

    def __call__(self, dsk, keys, **kw):
        dsk = _graph(dsk)
        deps = {k: [d for d in n.dependencies if d in dsk] for k, n in dsk.items()}
        done, remaining, order = {}, set(dsk), []
        while remaining:
            ready = sorted([k for k in remaining if all(d in done for d in deps[k])], key=str)
            k = ready[self.choose(len(ready)) if self.choose else self.rng.randrange(len(ready))]
            node = dsk[k]
            vals = {d: done[d] for d in node.dependencies}
            if self.isolate:
                node, vals = cloudpickle.loads(cloudpickle.dumps((node, vals)))
            r = node(vals)
            if self.isolate:
                r = cloudpickle.loads(cloudpickle.dumps(r))
            done[k] = r
            remaining.discard(k)
            order.append(str(k))
        self.orders.append(order)
        return _result(done, keys)


def exactly_once_lines(g, worker_re):
    """model input for the reduction-shape check of one recorded graph: for every output of the graph and every group of worker
    tasks running the same function, one `sched_check` line with that output as the final task and that group as the workers
    (tasks are recorded in execution order, hence in dependency order)"""
    ids = {t["key"]: i for i, t in enumerate(g["tasks"])}
    groups = {}
    for t in g["tasks"]:
        if worker_re.match(t["func"]):
            groups.setdefault(t["func"], []).append(ids[t["key"]])
    tasks = [{"id": ids[t["key"]], "deps": [ids[d] for d in t["deps"]], "reads": [], "writes": []} for t in g["tasks"]]
    outs = [ids[k] for k in g["out"] if k in ids] or [len(g["tasks"]) - 1]
    lines, metas = [], []
    for func, ws in sorted(groups.items()):
        for o in outs:
            lines.append({"op": "sched_check", "tasks": tasks, "final": o, "workers": ws, "shared": [], "copyback": []})
            metas.append({"func": func, "workers": len(ws), "output": g["tasks"][o]["func"], "tasks": len(tasks)})
    return lines, metas


def exactly_once_verdict(metas, outs, expected=None):
    """None if every group of workers enters some output exactly once each (and no output gets only part of a group, or a
    worker twice); otherwise a description.  `expected` = {function name: number of worker tasks the graph must hold} (Dask
    culls a task nothing depends on, so a dropped partition shows as a missing worker)"""
    reached = {}
    for func, n in (expected or {}).items():
        have = max([m["workers"] for m in metas if m["func"] == func] or [0])
        if have != n:
            return {"func": func, "workers_in_graph": have, "partitions": n}
    for m, o in zip(metas, outs):
        pc = o["path_counts"]
        if all(c == 0 for c in pc):
            reached.setdefault(m["func"], False)
            continue
        if not (o["topo_ordered"] and o["exactly_once"]):
            return {**m, "path_counts": pc, "topo_ordered": o["topo_ordered"]}
        reached[m["func"]] = True
    for func, ok in reached.items():
        if not ok:
            return {"func": func, "path_counts": "no output of the graph depends on these tasks"}
    return None
