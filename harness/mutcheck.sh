#!/bin/bash
# usage: mutcheck.sh <patch.diff> <property id>...   — run quick checks against a scratch copy of /repo with the patch applied
# (BOB_REPO / VERIF_OUT redirect the tree under test and the evidence/replay output; /repo and /verif/evidence are not touched)
patch=$1; shift
tag=$$
wt=/tmp/wt/probe-$tag; out=/tmp/wt/probe-out-$tag
mkdir -p /tmp/wt
git -C /repo worktree add -q $wt HEAD || exit 2
git -C $wt apply "$patch" || { git -C /repo worktree remove --force $wt; exit 2; }
cd "$(dirname "$0")/.."
for id in "$@"; do
  BOB_REPO=$wt VERIF_OUT=$out /venv/bin/python harness/check.py $id quick 2>&1 | tail -4
  for f in $out/replays/$id-quick-*.json; do [ -f "$f" ] && python3 -c "
import json,sys
d=json.load(open('$f')); print('   ', d.get('kind'), d.get('sig'), str(d.get('what') or d.get('ops') or d.get('broken'))[:260])"; done
done
git -C /repo worktree remove --force $wt; rm -rf $out
