"""Generators and helpers for the ISV / JFA / i-vector properties."""
import numpy as np

import core
import gen


def fa_scenario(rng, tier, jfa=None, sessions=None):
    C = int(rng.integers(1, 4))
    D = int(rng.integers(1, 4))
    rU = int(rng.integers(1, 3))
    if jfa is None:
        jfa = bool(rng.integers(0, 2))
    rV = int(rng.integers(1, 3)) if jfa else 0
    w, m, v, _ = gen.gmm_params(rng, C, D, scales=np.ones(D))
    U = rng.normal(size=(C * D, rU))
    V = rng.normal(size=(C * D, rV))
    Dd = rng.uniform(0.3, 1.5, size=C * D)
    if rng.random() < 0.35:
        Dd = Dd * rng.choice([-1.0, 1.0], size=C * D)  # D enters only as D z with z ~ N(0, 1): the sign of an entry is free (and EM keeps it)
    if rng.random() < 0.2:
        Dd[int(rng.integers(0, C * D))] = 0.0
    int_means = bool(rng.random() < 0.15)
    if int_means:  # UBM means typed in by hand: whole numbers in an integer-typed array (the setter takes any array)
        m = np.rint(m * 2.0)
    int_sub = bool(rng.random() < 0.15)
    if int_sub:  # loading matrices and offsets typed in by hand: whole numbers, in integer-typed arrays (the setters take any array-like)
        U, V = np.rint(U * 2.0), np.rint(V * 2.0)
        U[0] = np.where(U[0] == 0, 1.0, U[0])
        if V.size:
            V[0] = np.where(V[0] == 0, 1.0, V[0])
        Dd = np.where(np.rint(Dd * 2.0) == 0, 1.0, np.rint(Dd * 2.0))
    ns = int(rng.integers(1, 6)) if sessions is None else sessions
    sts = [rand_stat(rng, C, D, m, v) for _ in range(ns)]
    if ns >= 2 and sessions is None and rng.random() < 0.2:
        k0 = int(rng.integers(0, ns - 1))
        sts[k0] = dict(n=np.zeros(C), f=np.zeros((C, D)), t=0)  # a recording of which no frame was kept
    ubm_mvt = None
    if rng.random() < 0.2:
        # the UBM was trained with a non-default count threshold (a GMM training option: 1e-3 .. 0.5), and one session visited one
        # Gaussian only marginally: neither is any business of the factor-analysis model
        ubm_mvt = float(rng.choice([1e-3, 0.05, 0.5]))
        k0, c0 = int(rng.integers(0, len(sts))), int(rng.integers(0, C))
        if sts[k0]["n"][c0] > 0:
            f_ = float(rng.uniform(0.05, 0.6)) * ubm_mvt / sts[k0]["n"][c0]
            sts[k0]["n"] = np.array(sts[k0]["n"], dtype=float)
            sts[k0]["f"] = np.array(sts[k0]["f"], dtype=float)
            sts[k0]["n"][c0] *= f_
            sts[k0]["f"][c0] *= f_
    return dict(C=C, D=D, rU=rU, rV=rV, jfa=jfa, w=w, m=m, v=v, U=U, V=V, Dd=Dd, sts=sts, ubm_mvt=ubm_mvt,
                int_subspaces=int_sub, ubm_int_means=int_means, ubm_layout="F" if rng.random() < 0.2 else "C", route=pick_route(rng), np_ints=bool(rng.random() < 0.3), layout=["C", "C", "F", "strided"][int(rng.integers(0, 4))])


def rand_stat(rng, C, D, m, v, zero=False):
    t = 0 if zero else int(rng.integers(2, 40))
    n = rng.dirichlet(np.ones(C)) * t * rng.uniform(0.5, 1.0)  # fractional counts
    if not zero and rng.random() < 0.15:
        n[int(rng.integers(0, C))] = 0.0
    f = (m + rng.normal(size=(C, D)) * np.sqrt(v) * 1.5) * n[:, None]
    return dict(n=n, f=f, t=t)


def mk_stats(sc, st):
    g = gen.mk_stats(sc["C"], sc["D"], st["n"], st["f"], np.zeros((sc["C"], sc["D"])), st["t"])
    n = np.asarray(st["n"])
    if sc.get("layout") == "F":  # the same first-order statistics in another memory layout (e.g. computed as (x.T @ resp).T)
        g.sum_px = np.asfortranarray(g.sum_px)
    elif sc.get("layout") == "dask":  # statistics whose arrays are Dask arrays (GMMStats built from a Dask computation, not yet computed)
        import dask.array as da
        g.n = da.from_array(np.asarray(g.n, dtype=float), chunks=-1)
        g.sum_px = da.from_array(np.asarray(g.sum_px, dtype=float), chunks=-1)
    elif sc.get("layout") == "strided":
        big = np.zeros((sc["C"], 2 * sc["D"]))
        big[:, ::2] = g.sum_px
        g.sum_px = big[:, ::2]
    if sc.get("int_counts") and np.all(n == np.rint(n)):
        g.n = n.astype(np.int64)  # hard-assignment counts stored as an integer-typed array (same values)
    return g


ROUTES = ("fresh", "fresh", "reuse_all", "reuse_ubm", "reuse_subspaces")


def pick_route(rng):
    return ROUTES[int(rng.integers(0, len(ROUTES)))]


def _warmup(mach, sc, rng):
    """use a machine the way a caller would before re-parameterising it: enrol and score one client (fills any cache)"""
    C, D = sc["C"], sc["D"]
    st = gen.mk_stats(C, D, rng.uniform(0.5, 5, C), rng.normal(size=(C, D)), np.zeros((C, D)), 7)
    model = mach.enroll([st])
    mach.estimate_x([st])
    mach.estimate_ux([st])
    mach.score(model, [st])


def mk_machine(sc, enroll_iterations=1, em_iterations=1):
    """Build the ISV/JFA machine of a scenario through one of the public routes (`sc["route"]`, default fresh):
    fresh            constructed with the scenario's UBM, then U, V, D assigned;
    reuse_all        a machine with unrelated parameters of the same shape is used (enrol, score), then every parameter is
                     re-assigned through the public setters (UBM arrays in place, U, V, D);
    reuse_ubm        as fresh but with another UBM, used, then the UBM's means / variances are set to the scenario's
                     (U, V, D untouched: the same array objects);
    reuse_subspaces  as fresh but with other U, V, D, used, then U, V, D are re-assigned (UBM untouched).
    The property is about the machine's *current* parameters, so all routes must behave like `fresh`."""
    from bob.learn.em import ISVMachine, JFAMachine

    route = sc.get("route", "fresh")
    if sc.get("np_ints"):  # option values given as NumPy integers (e.g. taken from an array of settings) instead of Python ints
        enroll_iterations, em_iterations = np.int64(enroll_iterations), np.int64(em_iterations)
    rng = np.random.default_rng(12345)
    w, m, v = (np.array(sc[k], dtype=float) for k in ("w", "m", "v"))
    U, V, Dd = (np.array(sc[k], dtype=float) for k in ("U", "V", "Dd"))
    if sc.get("int_subspaces"):  # integer-valued U and V handed over as integer-typed arrays (a legal way to set them)
        U = U.astype(np.int64) if np.all(U == np.rint(U)) else U
        V = V.astype(np.int64) if np.all(V == np.rint(V)) else V
        Dd = Dd.astype(np.int64) if np.all(Dd == np.rint(Dd)) else Dd
    other_ubm = route in ("reuse_all", "reuse_ubm")
    other_sub = route in ("reuse_all", "reuse_subspaces")
    m0 = m + rng.normal(size=m.shape) if other_ubm else m
    v0 = v * rng.uniform(0.3, 3.0, size=v.shape) if other_ubm else v
    # the UBM's parameter arrays in C order or (e.g. assigned as `table.T`) in Fortran order: the same values either way
    lay = np.asfortranarray if sc.get("ubm_layout") == "F" else (lambda a: a)
    ubm = gen.mk_gmm(w, m0, v0) if sc.get("ubm_mvt") is None else gen.mk_gmm(w, m0, v0, thr=gen.EPS, mean_var_update_threshold=sc["ubm_mvt"])  # (explicit floors: by default they are the count threshold)
    if sc.get("ubm_layout") == "F":
        ubm.means, ubm.variances = lay(m0), lay(v0)
    as_int = (lambda a: np.rint(a).astype(np.int64)) if sc.get("ubm_int_means") and np.all(m == np.rint(m)) else (lambda a: a)
    if not other_ubm:
        ubm.means = lay(as_int(m0))
    if sc["jfa"]:
        mach = JFAMachine(sc["rU"], sc["rV"], ubm=ubm, enroll_iterations=enroll_iterations, em_iterations=em_iterations)
        mach.V = V + rng.normal(size=V.shape) if other_sub else V
    else:
        mach = ISVMachine(sc["rU"], ubm=ubm, enroll_iterations=enroll_iterations, em_iterations=em_iterations)
    mach.U = U + rng.normal(size=U.shape) if other_sub else U
    mach.D = Dd * rng.uniform(0.5, 2.0, size=Dd.shape) if other_sub else Dd
    if route != "fresh":
        _warmup(mach, sc, rng)
        if other_ubm:
            mach.ubm.means = lay(as_int(m))
            mach.ubm.variances = lay(v)
        if other_sub:
            if sc["jfa"]:
                mach.V = V
            mach.U = U
            mach.D = Dd
    return mach


def model_fields(sc):
    C, D = sc["C"], sc["D"]
    return {"C": C, "D": D, "rU": sc["rU"], "rV": sc["rV"], "m": core.enc(sc["m"]), "s": core.enc(sc["v"]), "U": core.enc(np.asarray(sc["U"]).reshape(C, D, sc["rU"])),
            "V": core.enc(np.asarray(sc["V"]).reshape(C, D, sc["rV"])), "Dd": core.enc(np.asarray(sc["Dd"]).reshape(C, D))}


def st_line(st):
    return {"n": core.enc(st["n"]), "f": core.enc(st["f"]), "t": core.bits(st["t"])}


def dec1(x, n):
    a = core.dec(x)
    return np.asarray(a, dtype=float).reshape(n)
