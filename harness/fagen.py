"""Generators and helpers for the ISV / JFA / i-vector properties."""
import numpy as np

import core
import gen


def fa_scenario(rng, tier, jfa=None, sessions=None):
    C = int(rng.integers(1, 4))
    D = int(rng.integers(1, 4))
    rU = int(rng.integers(1, 3))
    if jfa is None:
        jfa = bool(rng.integers(0, 2))
    rV = int(rng.integers(1, 3)) if jfa else 0
    w, m, v, _ = gen.gmm_params(rng, C, D, scales=np.ones(D))
    U = rng.normal(size=(C * D, rU))
    V = rng.normal(size=(C * D, rV))
    Dd = rng.uniform(0.3, 1.5, size=C * D)
    ns = int(rng.integers(1, 6)) if sessions is None else sessions
    return dict(C=C, D=D, rU=rU, rV=rV, jfa=jfa, w=w, m=m, v=v, U=U, V=V, Dd=Dd, sts=[rand_stat(rng, C, D, m, v) for _ in range(ns)])


def rand_stat(rng, C, D, m, v, zero=False):
    t = 0 if zero else int(rng.integers(2, 40))
    n = rng.dirichlet(np.ones(C)) * t * rng.uniform(0.5, 1.0)  # fractional counts
    if not zero and rng.random() < 0.15:
        n[int(rng.integers(0, C))] = 0.0
    f = (m + rng.normal(size=(C, D)) * np.sqrt(v) * 1.5) * n[:, None]
    return dict(n=n, f=f, t=t)


def mk_stats(sc, st):
    return gen.mk_stats(sc["C"], sc["D"], st["n"], st["f"], np.zeros((sc["C"], sc["D"])), st["t"])


def mk_machine(sc, enroll_iterations=1, em_iterations=1):
    from bob.learn.em import ISVMachine, JFAMachine

    ubm = gen.mk_gmm(sc["w"], sc["m"], sc["v"])
    if sc["jfa"]:
        mach = JFAMachine(sc["rU"], sc["rV"], ubm=ubm, enroll_iterations=enroll_iterations, em_iterations=em_iterations)
        mach.V = np.array(sc["V"])
    else:
        mach = ISVMachine(sc["rU"], ubm=ubm, enroll_iterations=enroll_iterations, em_iterations=em_iterations)
    mach.U = np.array(sc["U"])
    mach.D = np.array(sc["Dd"])
    return mach


def model_fields(sc):
    C, D = sc["C"], sc["D"]
    return {"C": C, "D": D, "rU": sc["rU"], "rV": sc["rV"], "m": core.enc(sc["m"]), "s": core.enc(sc["v"]), "U": core.enc(np.asarray(sc["U"]).reshape(C, D, sc["rU"])),
            "V": core.enc(np.asarray(sc["V"]).reshape(C, D, sc["rV"])), "Dd": core.enc(np.asarray(sc["Dd"]).reshape(C, D))}


def st_line(st):
    return {"n": core.enc(st["n"]), "f": core.enc(st["f"]), "t": core.bits(st["t"])}


def dec1(x, n):
    a = core.dec(x)
    return np.asarray(a, dtype=float).reshape(n)
