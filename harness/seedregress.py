#!/usr/bin/env python3
"""Regression over the kept seeded changes: apply each /verif/seeded/<name>/patch.diff to a scratch worktree of /repo and run the
quick check of the property it targets (BOB_REPO / VERIF_OUT: neither /repo nor the committed evidence is touched).
usage: seedregress.py [names...]    exit 0 iff every change is reported by its target check"""
import glob, json, os, shutil, subprocess, sys
from concurrent.futures import ThreadPoolExecutor

V = os.path.dirname(os.path.dirname(os.path.abspath(__file__)))


def sh(cmd, **kw):
    return subprocess.run(cmd, shell=True, capture_output=True, text=True, **kw)


def one(d):
    name = os.path.basename(d)
    meta = json.load(open(os.path.join(d, "meta.json")))
    prop = meta["property"]
    if meta.get("superseded_by_fix"):
        return name, prop, "superseded", f"no longer a behaviour change since fix {meta['superseded_by_fix']}"
    wt, out = f"/tmp/wt/reg-{name}", f"/tmp/wt/reg-out-{name}"
    sh(f"git -C /repo worktree remove --force {wt}")
    if sh(f"git -C /repo worktree add {wt} HEAD").returncode or sh(f"git -C {wt} apply {d}/patch.diff").returncode:
        sh(f"git -C /repo worktree remove --force {wt}")
        return name, prop, "patch-does-not-apply", ""
    try:
        p = sh(f"/venv/bin/python harness/check.py {prop} quick", cwd=V, timeout=3000,
               env=dict(os.environ, BOB_REPO=wt, VERIF_OUT=out, VERIF_SEED=os.environ.get("VERIF_SEED", "0")))
        viol = [l for l in p.stdout.splitlines() if l.startswith("VIOLATION")]
        kind = ""
        if viol:
            try:
                r = json.load(open(viol[0].split("replay=")[1].split()[0]))
                kind = f"{r.get('kind')}: {r.get('sig') or r.get('ops')}"
            except Exception:
                pass
        return name, prop, "caught" if p.returncode == 1 and viol else f"MISSED(exit {p.returncode})", kind
    finally:
        sh(f"git -C /repo worktree remove --force {wt}")
        shutil.rmtree(out, ignore_errors=True)


def main():
    os.makedirs("/tmp/wt", exist_ok=True)
    dirs = sorted(d for d in glob.glob(os.path.join(V, "seeded", "*")) if os.path.isdir(d) and (not sys.argv[1:] or os.path.basename(d) in sys.argv[1:]))
    missed = 0
    with ThreadPoolExecutor(int(os.environ.get("JOBS", "6"))) as ex:
        for name, prop, res, kind in ex.map(one, dirs):
            print(f"{name:8s} {prop} {res:12s} {kind}")
            if res == "caught" and kind:
                mp = os.path.join(V, "seeded", name, "meta.json")
                meta = json.load(open(mp))
                if meta.get("target_report") != kind:
                    meta["target_report"] = kind
                    json.dump(meta, open(mp, "w"), indent=1)
            missed += res not in ("caught", "superseded")
    print(f"{len(dirs) - missed}/{len(dirs)} seeded changes reported by their target check")
    return 1 if missed else 0


if __name__ == "__main__":
    sys.exit(main())
