"""Shared machinery of the bob.learn.em proof checks (see /verif/DESIGN.md §2).

Nothing here decides a property: the theorems (lean/BobEM/Props) do.  This
module builds and audits them, runs the model's executable definitions
(lean/Driver.lean, compiled natively: the model imports nothing) on the same
inputs as the implementation, compares, and turns the outcome into the
verdict / evidence required by MANIFEST.json.
"""
import fcntl
import hashlib
import json
import os
import re
import shutil
import struct
import subprocess
import sys
import time

import numpy as np

VERIF = os.path.dirname(os.path.dirname(os.path.abspath(__file__)))
LEAN = os.path.join(VERIF, "lean")
REPO = os.environ.get("BOB_REPO", "/repo")
WORK = os.path.join(VERIF, ".work", str(os.getpid()))
ALLOWED_AXIOMS = {"propext", "Classical.choice", "Quot.sound"}
FORBIDDEN = re.compile(
    r"\bsorry\b|\badmit\b|^axiom |native_decide|bv_decide|implemented_by|\bunsafe |maxHeartbeats 0"
)


class Infra(Exception):
    """Infrastructure failure (exit 2): never a verdict about the property."""


# --------------------------------------------------------------------------
# floats cross the pipe as their 64-bit patterns
def bits(x):
    return struct.unpack("<Q", struct.pack("<d", float(x)))[0]


def unbits(n):
    return struct.unpack("<d", struct.pack("<Q", int(n)))[0]


def enc(a):
    a = np.asarray(a, dtype=float)
    if a.ndim == 0:
        return bits(a)
    return [enc(x) for x in a]


def dec(a):
    if isinstance(a, list):
        return np.array([dec(x) for x in a], dtype=float)
    return unbits(a)


def close(a, b, rtol=1e-8, atol=1e-10):
    """|a-b| <= atol + rtol*max(|a|,|b|), NaN == NaN, inf == inf of same sign."""
    a = np.asarray(a, dtype=float)
    b = np.asarray(b, dtype=float)
    if a.shape != b.shape:
        return False
    both_nan = np.isnan(a) & np.isnan(b)
    with np.errstate(invalid="ignore"):
        same_inf = np.isinf(a) & np.isinf(b) & (np.sign(a) == np.sign(b))
        # finite values only: inf <= inf would otherwise accept a finite value against an infinite one
        ok = np.isfinite(a) & np.isfinite(b) & (np.abs(a - b) <= atol + rtol * np.maximum(np.abs(a), np.abs(b)))
    return bool(np.all(ok | both_nan | same_inf))


def maxdiff(a, b):
    a = np.asarray(a, dtype=float)
    b = np.asarray(b, dtype=float)
    if a.shape != b.shape:
        return float("inf")
    with np.errstate(invalid="ignore"):
        d = np.abs(a - b) / (1e-300 + np.maximum(np.abs(a), np.abs(b)))
    d = np.where(np.isnan(a) & np.isnan(b), 0.0, d)
    d = np.where(np.isnan(d), np.inf, d)
    return float(np.max(d)) if d.size else 0.0


def tolist(a):
    """JSON-able, human-readable rendering of arrays for samples and replays."""
    if isinstance(a, np.ndarray):
        return a.tolist()
    if isinstance(a, (np.floating, np.integer)):
        return a.item()
    if isinstance(a, dict):
        return {k: tolist(v) for k, v in a.items()}
    if isinstance(a, (list, tuple)):
        return [tolist(x) for x in a]
    return a


# --------------------------------------------------------------------------
# Lean side
def _lock():
    os.makedirs(os.path.join(LEAN, ".lake"), exist_ok=True)
    f = open(os.path.join(LEAN, ".lake", "verif.lock"), "w")
    fcntl.flock(f, fcntl.LOCK_EX)
    return f


def lake_build_target(module, timeout=3000):
    """Build the property's theorem module (with everything it imports) and the driver."""
    lock = _lock()
    try:
        t0 = time.time()
        p = subprocess.run(
            ["lake", "build", module, "driver"],
            cwd=LEAN,
            capture_output=True,
            text=True,
            timeout=timeout,
        )
        log = p.stdout + p.stderr
        return p.returncode == 0, log, time.time() - t0
    except subprocess.TimeoutExpired:
        raise Infra("lake build timed out")
    except FileNotFoundError:
        raise Infra("lake not found")
    finally:
        lock.close()


def failing_modules(log):
    return sorted(set(re.findall(r"error: (BobEM/[\w/]+\.lean)", log)))


def audit(theorems, module="BobEM", timeout=900):
    """#print axioms for every listed theorem.  Returns {name: (ok, detail)}."""
    os.makedirs(WORK, exist_ok=True)
    path = os.path.join(WORK, "Audit.lean")
    with open(path, "w") as f:
        f.write(f"import {module}\n")
        for t in theorems:
            f.write(f"#print axioms {t}\n")
    try:
        p = subprocess.run(
            ["lake", "env", "lean", path],
            cwd=LEAN,
            capture_output=True,
            text=True,
            timeout=timeout,
        )
    except subprocess.TimeoutExpired:
        raise Infra("axiom audit timed out")
    out = p.stdout + p.stderr
    res = {}
    for t in theorems:
        m = re.search(
            r"'" + re.escape(t) + r"' depends on axioms: \[([^\]]*)\]", out, re.S
        )
        if m:
            ax = {a.strip() for a in m.group(1).replace("\n", " ").split(",") if a.strip()}
            bad = ax - ALLOWED_AXIOMS
            res[t] = (not bad, "axioms: " + ", ".join(sorted(ax)))
        elif re.search(r"'" + re.escape(t) + r"' does not depend on any axioms", out):
            res[t] = (True, "axioms: none")
        else:
            res[t] = (False, "theorem missing or does not check")
    return res, out


def grep_forbidden():
    """sorry / admit / axiom / native_decide ... outside comments in the Lean sources."""
    hits = []
    for root, _, files in os.walk(LEAN):
        if ".lake" in root:
            continue
        for fn in files:
            if not fn.endswith(".lean"):
                continue
            p = os.path.join(root, fn)
            src = open(p).read()
            src = re.sub(r"/-.*?-/", lambda m: "\n" * m.group(0).count("\n"), src, flags=re.S)
            for i, line in enumerate(src.splitlines(), 1):
                code = line.split("--")[0]
                if FORBIDDEN.search(code):
                    hits.append(f"{os.path.relpath(p, LEAN)}:{i}: {line.strip()[:100]}")
    return hits


def leanchecker(mods, timeout=3000):
    lock = _lock()
    try:
        p = subprocess.run(
            ["lake", "env", "leanchecker"] + sorted(mods),
            cwd=LEAN, capture_output=True, text=True, timeout=timeout,
        )
        return p.returncode == 0, (p.stdout + p.stderr)[-2000:]
    except subprocess.TimeoutExpired:
        raise Infra("leanchecker timed out")
    finally:
        lock.close()


def drive(lines, timeout=600):
    """Run the model (Float instantiation) on JSON lines; one JSON result per line."""
    exe = os.path.join(LEAN, ".lake", "build", "bin", "driver")
    if not os.path.exists(exe):
        raise Infra("driver executable missing (lake build failed?)")
    if not lines:
        return []
    data = "\n".join(json.dumps(l, separators=(",", ":")) for l in lines) + "\n"
    try:
        p = subprocess.run([exe], input=data, capture_output=True, text=True, timeout=timeout)
    except subprocess.TimeoutExpired:
        raise Infra("model driver timed out")
    if p.returncode != 0:
        raise Infra("model driver crashed: " + p.stderr[-500:])
    outs = p.stdout.strip().splitlines()
    if len(outs) != len(lines):
        raise Infra(f"model driver returned {len(outs)} results for {len(lines)} lines: {p.stdout[-300:]} {p.stderr[-300:]}")
    return [json.loads(o) for o in outs]


# --------------------------------------------------------------------------
def check_env():
    sys.path.insert(0, os.path.join(VERIF, "harness"))
    # the tree under test: /repo (where /venv's editable install points anyway) or the copy named by BOB_REPO
    sys.path.insert(0, os.path.join(REPO, "src"))
    os.environ["PYTHONPATH"] = os.path.join(REPO, "src") + os.pathsep + os.environ.get("PYTHONPATH", "")
    import warnings

    warnings.filterwarnings("ignore")
    import logging

    logging.disable(logging.CRITICAL)
    try:
        import bob.learn.em as pkg
    except Exception as e:  # the tree under test does not import: that is a finding of its own
        raise Infra(f"bob.learn.em does not import: {e!r}")
    import dask

    dask.config.set(scheduler="synchronous")  # default executor of the harness; other executors are chosen explicitly
    src = os.path.realpath(os.path.dirname(pkg.__file__))
    if not src.startswith(os.path.realpath(os.path.join(REPO, "src"))):
        raise Infra(f"bob.learn.em imported from {src}, not from {REPO}/src")
    return pkg


class ImplError:
    """The implementation raised on this input (canonicalised to the exception type)."""

    def __init__(self, e):
        self.kind = type(e).__name__
        self.msg = str(e)[:200]

    def __repr__(self):
        return f"ImplError({self.kind}: {self.msg})"


class DoesNotTerminate(Exception):
    """the implementation call did not return within IMPL_TIMEOUT seconds (all inputs of the harness are tiny)"""


IMPL_TIMEOUT = float(os.environ.get("VERIF_IMPL_TIMEOUT", "60"))
_timeouts_seen = 0  # after the first non-terminating call of a run the limit drops to 5 s: the finding exists, the run should still end


def impl(fn, *a, _slow=1.0, **k):
    """Run one call of the implementation: whatever it raises is an observation (ImplError); a call that does not return
    within IMPL_TIMEOUT seconds is observed as DoesNotTerminate instead of hanging the check (main thread only).
    The limit is wall-clock time, so it is stretched by the machine's load (runnable processes per core) and by `_slow`
    for calls that are slow by construction (a pool of spawned worker processes per compute)."""
    import signal
    import threading
    import warnings

    use_alarm = threading.current_thread() is threading.main_thread() and signal.getitimer(signal.ITIMER_REAL)[0] == 0

    global _timeouts_seen
    limit = IMPL_TIMEOUT if _timeouts_seen == 0 else min(IMPL_TIMEOUT, 5.0)
    try:
        limit *= _slow * max(1.0, os.getloadavg()[0] / (os.cpu_count() or 1))
    except OSError:
        limit *= _slow

    def on_alarm(signum, frame):
        global _timeouts_seen
        _timeouts_seen += 1
        raise DoesNotTerminate(f"no result after {limit:.0f}s")

    old = None
    try:
        if use_alarm:
            old = signal.signal(signal.SIGALRM, on_alarm)
            # a check started from a thread of another Python program can inherit a signal mask in which SIGALRM is blocked
            signal.pthread_sigmask(signal.SIG_UNBLOCK, {signal.SIGALRM})
            # periodic: library code between the call and us may swallow the exception (a broad `except` around an attribute
            # lookup, say) - it is raised again every second until it gets through
            signal.setitimer(signal.ITIMER_REAL, limit, 1.0)
        with warnings.catch_warnings():
            warnings.simplefilter("ignore")
            with np.errstate(all="ignore"):
                return fn(*a, **k)
    except Exception as e:  # noqa: BLE001 — whatever the code under test raises is an observation
        return ImplError(e)
    finally:
        if use_alarm:
            signal.setitimer(signal.ITIMER_REAL, 0)
            signal.signal(signal.SIGALRM, old)


def cleanup():
    shutil.rmtree(WORK, ignore_errors=True)


def sha(obj):
    return hashlib.sha256(json.dumps(obj, sort_keys=True, default=str).encode()).hexdigest()[:16]


class Ctx:
    """Per-run context handed to a property module."""

    def __init__(self, pid, tier, seed, scale=1):
        self.pid = pid
        self.tier = tier
        self.seed = seed
        self.rng = np.random.default_rng([seed, int(pid[1:])])
        self.scale = scale
        self.hist = {}
        self.samples = []
        self.evaluations = 0
        self.nontrivial = set()
        self.traces = 0
        self.deadline = None

    def budget(self, quick, thorough):
        n = quick if self.tier == "quick" else thorough
        return max(1, int(n * self.scale))

    def count(self, key, n=1):
        self.hist[key] = self.hist.get(key, 0) + n

    def case(self, desc, nontrivial=True, sample=None):
        """Register one explored case; `desc` is hashed for distinctness."""
        self.evaluations += 1
        if nontrivial:
            self.nontrivial.add(sha(desc))
        if sample is not None and len(self.samples) < 4:
            self.samples.append(tolist(sample))
