#!/usr/bin/env python3
"""Print the DESIGN.md §9.7 table from seeded/*/meta.json (name, round, target, how reported, first signature, also reported by, suite)."""
import glob, json, os, re
V = os.path.dirname(os.path.dirname(os.path.abspath(__file__)))
ROUND = {"s": None, **{f"s{k}": k for k in range(3, 30)}}
R12 = {"C02": 1, "C03": 1, "C04": 1, "C06": 1, "C11": 1, "C12": 1, "C13": 1, "C17": 1, "C18": 1, "C19": 1}


def key(d):
    n = os.path.basename(d)
    pre, c = n.split("-")
    return (int(pre[1:] or 2), c)


print("| change | round | target | how the target check reports it | first signature | also reported by | suite unchanged |")
print("|---|---|---|---|---|---|---|")
for d in sorted((x for x in glob.glob(os.path.join(V, "seeded", "*")) if os.path.isdir(x)), key=key):
    m = json.load(open(os.path.join(d, "meta.json")))
    n = m["name"]
    pre, c = n.split("-")
    rnd = ROUND[pre] or R12.get(c, 2)
    t = m.get("checks", {}).get(m["property"], {})
    first = t.get("first") or {}
    how = first.get("kind") or ("—" if not m.get("superseded_by_fix") else "superseded")
    sig = first.get("sig") or first.get("what") or ""
    if not first and m.get("target_report"):  # reported after the machinery was strengthened (seedregress)
        how, _, sig = m["target_report"].partition(": ")
    if m.get("superseded_by_fix"):
        how, sig = "superseded", f"no longer a behaviour change since fix {m['superseded_by_fix']}"
    also = ", ".join(x for x in m.get("caught_by", []) if x != m["property"]) or "—"
    print(f"| `{n}` | {rnd} | {m['property']} | {how} | `{str(sig)[:70]}` | {also} | {'yes' if m.get('suite_ok') else 'NO'} |")
